// Package pbt holds shared helpers for the verification harness: per-run
// statistics that become the evidence file, deterministic byte streams and
// the known-findings loader.
package pbt

import (
	"encoding/json"
	"hash/fnv"
	"os"
	"path/filepath"
	"sort"
	"sync"
)

// Stats collects what one test function of one property actually explored.
// It is flushed to $VERIF_STATS_DIR/<name>.json; the driver merges the files
// of all test functions of a property into /verif/evidence/<id>.json.
type Stats struct {
	mu       sync.Mutex
	name     string
	evals    int
	distinct map[uint64]struct{}
	classes  map[string]int
	first    []any
	// keep the samples with the smallest hashes: a deterministic "reservoir".
	low      []hashed
	excluded map[string]int
	extra    map[string]any
}

type hashed struct {
	h uint64
	v any
}

const sampleK = 3

// NewStats creates a collector named after the test function.
func NewStats(name string) *Stats {
	return &Stats{
		name:     name,
		distinct: map[uint64]struct{}{},
		classes:  map[string]int{},
		excluded: map[string]int{},
		extra:    map[string]any{},
	}
}

func hash64(s string) uint64 {
	h := fnv.New64a()
	_, _ = h.Write([]byte(s))
	return h.Sum64()
}

// Case records one executed case. key is the canonical descriptor used for
// distinctness; sample is what is written out (may be nil to use key);
// nontrivial says whether the property's stated rule holds for it.
func (s *Stats) Case(key string, nontrivial bool, sample any, classes ...string) {
	s.mu.Lock()
	defer s.mu.Unlock()
	s.evals++
	for _, c := range classes {
		s.classes[c]++
	}
	if !nontrivial {
		s.classes["trivial"]++
		return
	}
	h := hash64(key)
	if _, ok := s.distinct[h]; ok {
		return
	}
	s.distinct[h] = struct{}{}
	if sample == nil {
		sample = key
	}
	if len(s.first) < sampleK {
		s.first = append(s.first, sample)
		return
	}
	s.low = append(s.low, hashed{h, sample})
	sort.Slice(s.low, func(i, j int) bool { return s.low[i].h < s.low[j].h })
	if len(s.low) > sampleK {
		s.low = s.low[:sampleK]
	}
}

// Class bumps a class counter without counting a case.
func (s *Stats) Class(name string) {
	s.mu.Lock()
	s.classes[name]++
	s.mu.Unlock()
}

// ClassN adds n to a class counter.
func (s *Stats) ClassN(name string, n int) {
	s.mu.Lock()
	s.classes[name] += n
	s.mu.Unlock()
}

// Excluded counts a generated shape that was excluded by construction because
// it is a listed known finding.
func (s *Stats) Excluded(finding string) {
	s.mu.Lock()
	s.excluded[finding]++
	s.mu.Unlock()
}

// Set stores an extra key in the coverage object (e.g. "exhaustive").
func (s *Stats) Set(key string, v any) {
	s.mu.Lock()
	s.extra[key] = v
	s.mu.Unlock()
}

// Evals returns the number of cases recorded so far.
func (s *Stats) Evals() int {
	s.mu.Lock()
	defer s.mu.Unlock()
	return s.evals
}

type statsFile struct {
	Name               string         `json:"name"`
	Evaluations        int            `json:"evaluations"`
	DistinctNontrivial int            `json:"distinct_nontrivial"`
	Hashes             []uint64       `json:"hashes,omitempty"`
	Classes            map[string]int `json:"classes"`
	Excluded           map[string]int `json:"excluded"`
	Samples            []any          `json:"samples"`
	Extra              map[string]any `json:"extra"`
}

// Flush writes the collector to $VERIF_STATS_DIR (no-op when unset).
func (s *Stats) Flush() {
	dir := os.Getenv("VERIF_STATS_DIR")
	if dir == "" {
		return
	}
	s.mu.Lock()
	defer s.mu.Unlock()
	f := statsFile{
		Name:               s.name,
		Evaluations:        s.evals,
		DistinctNontrivial: len(s.distinct),
		Classes:            s.classes,
		Excluded:           s.excluded,
		Extra:              s.extra,
	}
	// Hashes let the driver de-duplicate across shards; cap the file size.
	if len(s.distinct) <= 200000 {
		for h := range s.distinct {
			f.Hashes = append(f.Hashes, h)
		}
		sort.Slice(f.Hashes, func(i, j int) bool { return f.Hashes[i] < f.Hashes[j] })
	}
	f.Samples = append(f.Samples, s.first...)
	for _, l := range s.low {
		f.Samples = append(f.Samples, l.v)
	}
	b, err := json.Marshal(f)
	if err != nil {
		panic(err)
	}
	_ = os.MkdirAll(dir, 0o755)
	if err := os.WriteFile(filepath.Join(dir, s.name+".json"), b, 0o644); err != nil {
		panic(err)
	}
}
