package pbt

import (
	"fmt"
	"strings"
	"sync"
)

// Sched is a scheduling-point controller for owned schedules (T3). The code
// under test calls Hook(name, id) at build-tagged points; if the point name is
// enabled for this case the calling goroutine parks on its own channel until
// the test's root goroutine releases it. Inside a synctest bubble a parked
// goroutine is durably blocked, so synctest.Wait() returns once every goroutine
// is either parked here or blocked elsewhere, and the root goroutine then
// chooses (through rapid) what happens next.
type Sched struct {
	mu      sync.Mutex
	enabled map[string]bool
	parked  []*Parked
	off     bool
	// Hits counts how often each point was reached (parked or not).
	Hits map[string]int
	// Parks counts how often a goroutine actually parked at each point.
	Parks map[string]int
}

// Parked is one goroutine waiting at a point.
type Parked struct {
	Name string
	ID   int64
	ch   chan struct{}
}

func (p *Parked) String() string { return fmt.Sprintf("%s(%d)", p.Name, p.ID) }

// NewSched returns a controller that parks goroutines at the named points.
func NewSched(enabled ...string) *Sched {
	s := &Sched{enabled: map[string]bool{}, Hits: map[string]int{}, Parks: map[string]int{}}
	for _, e := range enabled {
		s.enabled[e] = true
	}
	return s
}

// Hook is the callback to install in the code under test.
func (s *Sched) Hook(name string, id int64) {
	s.mu.Lock()
	s.Hits[name]++
	// "log:<message>" points are enabled as a family by the name "log"
	if s.off || !(s.enabled[name] || (strings.HasPrefix(name, "log:") && s.enabled["log"])) {
		s.mu.Unlock()
		return
	}
	p := &Parked{Name: name, ID: id, ch: make(chan struct{})}
	s.parked = append(s.parked, p)
	s.Parks[name]++
	s.mu.Unlock()
	<-p.ch
}

// Waiting returns the goroutines currently parked, in arrival order.
func (s *Sched) Waiting() []*Parked {
	s.mu.Lock()
	defer s.mu.Unlock()
	return append([]*Parked(nil), s.parked...)
}

// Release resumes one parked goroutine.
func (s *Sched) Release(p *Parked) {
	s.mu.Lock()
	for i, q := range s.parked {
		if q == p {
			s.parked = append(s.parked[:i:i], s.parked[i+1:]...)
			break
		}
	}
	s.mu.Unlock()
	close(p.ch)
}

// Off stops parking and resumes everything parked (teardown).
func (s *Sched) Off() {
	s.mu.Lock()
	s.off = true
	ps := s.parked
	s.parked = nil
	s.mu.Unlock()
	for _, p := range ps {
		close(p.ch)
	}
}
