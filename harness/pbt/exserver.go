package pbt

import (
	"crypto/rsa"
	"crypto/sha1"
	"encoding/binary"
	"encoding/hex"
	"fmt"
	"io"
	"math/big"
	"net"
	"sync"
	"time"

	"verifharness/pbt/ref"
)

// ExServer is the harness's scripted MTProto key-exchange server (T4/T5),
// written from core.telegram.org/mtproto/auth_key with the references in
// pbt/ref. It can play an honest run, stall at a step, or apply one adversarial
// mutation. It speaks the intermediate transport over the server end of a pipe.
type ExServer struct {
	Conn net.Conn
	Key  *rsa.PrivateKey // the private key the server really holds
	Rnd  *Stream
	Mut  string // "" = honest; see Mutations
	Pos  int    // position parameter of a mutation (bit index etc.)
	// StallAt: the server goes silent instead of sending reply N (1 = ResPQ,
	// 2 = Server_DH_Params, 3 = dh_gen). 0 = never.
	StallAt int
	// PauseAt: reply N is held until Resume is closed; Paused is closed when the
	// server gets there.
	PauseAt int
	Paused  chan struct{}
	Resume  chan struct{}
	// ClaimFingerprints overrides the fingerprints announced in ResPQ.
	ClaimFingerprints []int64
	// Stale404 transport error frames (-404, "auth key not found") are sent right
	// after the first request arrives, before the ResPQ answer or the stall: a
	// server that still answers a previous connection attempt.
	Stale404 int
	// ForceA, if set, is used as the server's DH secret instead of a drawn one.
	ForceA *big.Int
	// GB is the client's g_b as received (set after step 3).
	GB *big.Int

	mu          sync.Mutex
	ReqAt       [4]time.Time // arrival time of the client's request for reply N
	Reached     int          // replies sent
	Applied     bool         // the mutation was actually applied
	AuthKey     [256]byte
	ServerSalt  int64
	NewNonce    [32]byte
	ServerNonce [16]byte
	Nonce       [16]byte
	TempMode    bool
	ExpiresIn   int32
	DC          int32
	Err         error
	Done        bool
	HeaderRead  bool
	// Replay holds the three replies of a previous run (for the replay attack).
	Replay [][]byte
	Sent   [][]byte
}

// TelegramPrime is the 2048-bit safe prime used by Telegram's production servers.
var TelegramPrime, _ = new(big.Int).SetString("C71CAEB9C6B1C9048E6C522F70F13F73980D40238E3E21C14934D037563D930F"+
	"48198A0AA7C14058229493D22530F4DBFA336F6E0AC925139543AED44CCE7C37"+
	"20FD51F69458705AC68CD4FE6B6B13ABDC9746512969328454F18FAF8C595F64"+
	"2477FE96BB2A941D5BCD1D4AC8CC49880708FA9B378E3C4F3A9060BEE67CF9A4"+
	"A4A695811051907E162753B56B0F6B410DBA74D8A84B2A14B3144E0EF1284754"+
	"FD17ED950D5965B4B9DD46582DB1178D169C6BC465B0D6FF9CA3928FEF5B9AE4"+
	"E418FC15E83EBEA0F87FA9FF5EED70050DED2849F47BF959D956850CE929851F"+
	"0D8115F635B105EE2E4E15D04B2454BF6F4FADF034B10403119CD8E3B92FCC5B", 16)

// Fingerprint of an RSA public key: lower 64 bits of SHA1(n:bytes e:bytes).
func Fingerprint(k *rsa.PublicKey) int64 {
	b := ref.PutBytes(nil, k.N.Bytes())
	b = ref.PutBytes(b, big.NewInt(int64(k.E)).Bytes())
	h := sha1.Sum(b)
	return int64(binary.LittleEndian.Uint64(h[12:]))
}

var (
	primeOnce    sync.Once
	notSafePrime *big.Int // 2048-bit prime whose (p-1)/2 is composite
	composite    *big.Int // 2048-bit product of two 1024-bit primes
)

func hostilePrimes() {
	primeOnce.Do(func() {
		s := NewStream(0xBADC0FFEE)
		gen := func(bits int) *big.Int {
			for {
				b := s.Bytes(bits / 8)
				b[0] |= 0xC0
				b[len(b)-1] |= 1
				p := new(big.Int).SetBytes(b)
				if p.ProbablyPrime(8) {
					return p
				}
			}
		}
		for {
			p := gen(2048)
			q := new(big.Int).Rsh(p, 1)
			if !q.ProbablyPrime(8) {
				notSafePrime = p
				break
			}
		}
		composite = new(big.Int).Mul(gen(1024), gen(1024))
	})
}

func (s *ExServer) fail(err error) error {
	s.mu.Lock()
	s.Err = err
	s.mu.Unlock()
	return err
}

func (s *ExServer) readMsg() ([]byte, error) {
	var hdr [4]byte
	if !s.HeaderRead {
		if _, err := io.ReadFull(s.Conn, hdr[:]); err != nil {
			return nil, err
		}
		if binary.LittleEndian.Uint32(hdr[:]) != 0xeeeeeeee {
			return nil, fmt.Errorf("exserver: transport header %x", hdr)
		}
		s.HeaderRead = true
	}
	if _, err := io.ReadFull(s.Conn, hdr[:]); err != nil {
		return nil, err
	}
	n := binary.LittleEndian.Uint32(hdr[:])
	if n > 1<<20 {
		return nil, fmt.Errorf("exserver: frame of %d bytes", n)
	}
	frame := make([]byte, n)
	if _, err := io.ReadFull(s.Conn, frame); err != nil {
		return nil, err
	}
	if len(frame) < 20 || binary.LittleEndian.Uint64(frame) != 0 {
		return nil, fmt.Errorf("exserver: not an unencrypted message")
	}
	l := int(binary.LittleEndian.Uint32(frame[16:]))
	if 20+l > len(frame) {
		return nil, fmt.Errorf("exserver: bad unencrypted length")
	}
	return frame[20 : 20+l], nil
}

func (s *ExServer) writeMsg(data []byte) error {
	now := time.Now()
	id := now.Unix()<<32 | int64(now.Nanosecond())&^3 | 1
	s.mu.Lock()
	id += int64(s.Reached) * 4
	s.Sent = append(s.Sent, data)
	s.mu.Unlock()
	msg := make([]byte, 0, 24+len(data))
	msg = binary.LittleEndian.AppendUint64(msg, 0)
	msg = binary.LittleEndian.AppendUint64(msg, uint64(id))
	msg = binary.LittleEndian.AppendUint32(msg, uint32(len(data)))
	msg = append(msg, data...)
	frame := binary.LittleEndian.AppendUint32(nil, uint32(len(msg)))
	frame = append(frame, msg...)
	_, err := s.Conn.Write(frame)
	return err
}

func (s *ExServer) reply(n int, data []byte) (stalled bool, err error) {
	if s.StallAt == n {
		return true, nil
	}
	if s.PauseAt == n && s.Resume != nil {
		// the answer is ready but held until the test lets it go
		if s.Paused != nil {
			close(s.Paused)
		}
		<-s.Resume
	}
	if s.Mut == "replay-previous-run" && len(s.Replay) >= n {
		data = s.Replay[n-1]
		s.Applied = true
	}
	if err := s.writeMsg(data); err != nil {
		return false, err
	}
	s.mu.Lock()
	s.Reached = n
	s.mu.Unlock()
	return false, nil
}

func flip(b []byte, bit int) []byte {
	out := append([]byte(nil), b...)
	if len(out) == 0 {
		return out
	}
	bit %= len(out) * 8
	out[bit/8] ^= 1 << (bit % 8)
	return out
}

// Run serves one key exchange. It returns nil when the exchange completed from
// the server's point of view or the server stalled on purpose.
func (s *ExServer) Run() error {
	if s.Mut == "prime-composite" || s.Mut == "prime-not-safe" {
		hostilePrimes()
	}
	// ---- 1. req_pq_multi
	req, err := s.readMsg()
	if err != nil {
		return s.fail(err)
	}
	s.ReqAt[1] = time.Now()
	if len(req) != 20 || binary.LittleEndian.Uint32(req) != 0xbe7e8ef1 {
		return s.fail(fmt.Errorf("exserver: expected req_pq_multi, got %x", req[:min(len(req), 8)]))
	}
	copy(s.Nonce[:], req[4:20])
	copy(s.ServerNonce[:], s.Rnd.Bytes(16))
	// pq: product of two primes below 2^31
	p, q := uint64(1229739323), uint64(1402015859)
	pq := new(big.Int).SetUint64(p * q)
	switch s.Mut {
	case "respq-pq-big":
		pq = new(big.Int).Lsh(big.NewInt(1), 64)
		pq.Add(pq, big.NewInt(21))
		s.Applied = true
	case "respq-pq-zero":
		pq, s.Applied = big.NewInt(0), true
	case "respq-pq-one":
		pq, s.Applied = big.NewInt(1), true
	case "respq-pq-prime":
		pq = new(big.Int).SetUint64(2305843009213693951) // 2^61-1
		s.Applied = true
	}
	fps := []int64{Fingerprint(&s.Key.PublicKey)}
	if s.ClaimFingerprints != nil {
		fps = s.ClaimFingerprints
		s.Applied = true
	}
	nonceEcho := s.Nonce
	if s.Mut == "respq-nonce" {
		nonceEcho[s.Pos%16] ^= 1
		s.Applied = true
	}
	res := le32(0x05162463)
	res = append(res, nonceEcho[:]...)
	res = append(res, s.ServerNonce[:]...)
	res = ref.PutBytes(res, pq.Bytes())
	res = append(res, le32(IDVector)...)
	res = append(res, le32(uint32(len(fps)))...)
	for _, f := range fps {
		res = append(res, le64(f)...)
	}
	for i := 0; i < s.Stale404; i++ {
		frame := binary.LittleEndian.AppendUint32(nil, 4)
		frame = binary.LittleEndian.AppendUint32(frame, uint32(0xffffffff-404+1))
		if _, err := s.Conn.Write(frame); err != nil {
			return s.fail(err)
		}
	}
	if stalled, err := s.reply(1, res); stalled || err != nil {
		return s.fail(err)
	}

	// ---- 2. req_DH_params
	req, err = s.readMsg()
	if err != nil {
		return s.fail(err)
	}
	s.ReqAt[2] = time.Now()
	if len(req) < 40 || binary.LittleEndian.Uint32(req) != 0xd712e4be {
		return s.fail(fmt.Errorf("exserver: expected req_DH_params"))
	}
	off := 4 + 16 + 16
	_, n, err := ref.Bytes(req[off:]) // p
	if err != nil {
		return s.fail(err)
	}
	off += n
	_, n, err = ref.Bytes(req[off:]) // q
	if err != nil {
		return s.fail(err)
	}
	off += n + 8 // fingerprint
	enc, _, err := ref.Bytes(req[off:])
	if err != nil {
		return s.fail(err)
	}
	dataPad, _, err := ref.RSAPadDecrypt(enc, s.Key.N, s.Key.D)
	if err != nil {
		// the client encrypted for a key we do not hold (own-key attack): the
		// attacker cannot learn new_nonce; it answers with a guessed one
		if s.Mut != "own-key-claim-trusted" {
			return s.fail(fmt.Errorf("exserver: RSA_PAD: %w", err))
		}
		copy(s.NewNonce[:], s.Rnd.Bytes(32))
		s.Applied = true
	} else {
		// p_q_inner_data_dc / p_q_inner_data_temp_dc
		id := binary.LittleEndian.Uint32(dataPad)
		if id != 0xa9f55f95 && id != 0x56fddf88 {
			return s.fail(fmt.Errorf("exserver: inner data id %#x", id))
		}
		s.TempMode = id == 0x56fddf88
		o := 4
		for i := 0; i < 3; i++ {
			_, n, err := ref.Bytes(dataPad[o:])
			if err != nil {
				return s.fail(err)
			}
			o += n
		}
		o += 32 // nonce, server_nonce
		copy(s.NewNonce[:], dataPad[o:o+32])
		o += 32
		s.DC = int32(binary.LittleEndian.Uint32(dataPad[o:]))
		if s.TempMode {
			s.ExpiresIn = int32(binary.LittleEndian.Uint32(dataPad[o+4:]))
		}
	}

	prime := new(big.Int).Set(TelegramPrime)
	g := 0
	for _, cand := range []int{3, 2, 4, 5, 6, 7} {
		if ref.IsQuadraticResidue(big.NewInt(int64(cand)), prime) {
			g = cand
			break
		}
	}
	switch s.Mut {
	case "prime-composite":
		prime, s.Applied = composite, true
	case "prime-not-safe":
		prime, s.Applied = notSafePrime, true
	case "prime-2047":
		prime, s.Applied = new(big.Int).Rsh(TelegramPrime, 1), true
	case "prime-2049":
		prime = new(big.Int).Lsh(TelegramPrime, 1)
		prime.Add(prime, big.NewInt(1))
		s.Applied = true
	case "g-bad-residue":
		for _, cand := range []int{2, 3, 5, 6, 7} {
			if !ref.IsQuadraticResidue(big.NewInt(int64(cand)), prime) {
				g, s.Applied = cand, true
				break
			}
		}
	case "g-0":
		g, s.Applied = 0, true
	case "g-1":
		g, s.Applied = 1, true
	case "g-8":
		g, s.Applied = 8, true
	case "g-neg":
		g, s.Applied = -1, true
	}
	a := new(big.Int).SetBytes(s.Rnd.Bytes(256))
	if s.ForceA != nil {
		a = new(big.Int).Set(s.ForceA)
	}
	ga := new(big.Int).Exp(big.NewInt(int64(g)), a, prime)
	margin := new(big.Int).Lsh(big.NewInt(1), 2048-64)
	pm := new(big.Int).Sub(prime, margin)
	for g > 1 && (ga.Cmp(margin) <= 0 || ga.Cmp(pm) >= 0) {
		a.Add(a, big.NewInt(1))
		ga.Exp(big.NewInt(int64(g)), a, prime)
	}
	one := big.NewInt(1)
	gaKnown := true // whether the server knows the discrete log of g_a
	var fixedKey *big.Int // the shared key when it does not depend on g_b (g_a congruent to 0 or 1 mod p)
	twoP := new(big.Int).Lsh(prime, 1)
	switch s.Mut {
	case "ga-plus-p":
		// the honest g_a shifted by the modulus: same residue (the server still knows
		// its discrete log, so every later hash is right) but outside 1 < g_a < p-1
		ga, s.Applied = new(big.Int).Add(ga, prime), true
	case "ga-2p":
		ga, s.Applied, gaKnown, fixedKey = twoP, true, false, big.NewInt(0)
	case "ga-2p+1":
		ga, s.Applied, gaKnown, fixedKey = new(big.Int).Add(twoP, one), true, false, big.NewInt(1)
	case "ga-p+1":
		ga, s.Applied, gaKnown, fixedKey = new(big.Int).Add(prime, one), true, false, big.NewInt(1)
	case "ga-2^2048-1":
		ga, s.Applied, gaKnown = new(big.Int).Sub(new(big.Int).Lsh(one, 2048), one), true, false
	case "ga-0":
		ga, s.Applied, gaKnown = big.NewInt(0), true, false
	case "ga-1":
		ga, s.Applied, gaKnown, fixedKey = big.NewInt(1), true, false, big.NewInt(1)
	case "ga-p-1":
		ga, s.Applied, gaKnown = new(big.Int).Sub(prime, one), true, false
	case "ga-p":
		ga, s.Applied, gaKnown = new(big.Int).Set(prime), true, false
	case "ga-2^1984":
		ga, s.Applied, gaKnown = new(big.Int).Set(margin), true, false
	case "ga-p-2^1984":
		ga, s.Applied, gaKnown = new(big.Int).Set(pm), true, false
	case "ga-just-inside-low":
		ga, s.Applied, gaKnown = new(big.Int).Add(margin, one), true, false
	case "ga-just-inside-high":
		ga, s.Applied, gaKnown = new(big.Int).Sub(pm, one), true, false
	}
	inNonce, inSN := s.Nonce, s.ServerNonce
	if s.Mut == "inner-nonce" {
		inNonce[s.Pos%16] ^= 1
		s.Applied = true
	}
	if s.Mut == "inner-server-nonce" {
		inSN[s.Pos%16] ^= 1
		s.Applied = true
	}
	inner := le32(0xb5890dba)
	inner = append(inner, inNonce[:]...)
	inner = append(inner, inSN[:]...)
	inner = append(inner, le32(uint32(int32(g)))...)
	inner = ref.PutBytes(inner, prime.Bytes())
	inner = ref.PutBytes(inner, ga.Bytes())
	inner = append(inner, le32(uint32(time.Now().Unix()))...)
	keyNonce := s.NewNonce
	if s.Mut == "answer-wrong-newnonce" {
		keyNonce[s.Pos%32] ^= 1
		s.Applied = true
	}
	tk, tiv := ref.TempAESKeys(keyNonce, s.ServerNonce)
	h := sha1.Sum(inner)
	plain := append(h[:], inner...)
	for len(plain)%16 != 0 {
		plain = append(plain, s.Rnd.Bytes(1)...)
	}
	answer := ref.IGEEncrypt(tk[:], tiv[:], plain)
	if s.Mut == "answer-bitflip" {
		answer = flip(answer, s.Pos)
		s.Applied = true
	}
	echoN, echoSN := s.Nonce, s.ServerNonce
	if s.Mut == "dhparams-nonce" {
		echoN[s.Pos%16] ^= 1
		s.Applied = true
	}
	if s.Mut == "dhparams-server-nonce" {
		echoSN[s.Pos%16] ^= 1
		s.Applied = true
	}
	dh := le32(0xd0e8075c)
	dh = append(dh, echoN[:]...)
	dh = append(dh, echoSN[:]...)
	dh = ref.PutBytes(dh, answer)
	if s.Mut == "dhparams-fail" {
		dh = le32(0x79cb045d) // server_DH_params_fail
		dh = append(dh, s.Nonce[:]...)
		dh = append(dh, s.ServerNonce[:]...)
		dh = append(dh, make([]byte, 16)...)
		s.Applied = true
	}
	if stalled, err := s.reply(2, dh); stalled || err != nil {
		return s.fail(err)
	}

	// ---- 3. set_client_DH_params
	req, err = s.readMsg()
	if err != nil {
		return s.fail(err)
	}
	s.ReqAt[3] = time.Now()
	if len(req) < 40 || binary.LittleEndian.Uint32(req) != 0xf5045f1f {
		return s.fail(fmt.Errorf("exserver: expected set_client_DH_params"))
	}
	encData, _, err := ref.Bytes(req[36:])
	if err != nil {
		return s.fail(err)
	}
	tk, tiv = ref.TempAESKeys(s.NewNonce, s.ServerNonce)
	cp := ref.IGEDecrypt(tk[:], tiv[:], encData)
	if len(cp) < 20+4+32+8 || binary.LittleEndian.Uint32(cp[20:]) != 0x6643b654 {
		return s.fail(fmt.Errorf("exserver: client_DH_inner_data does not decrypt"))
	}
	gbBytes, _, err := ref.Bytes(cp[20+4+32+8:])
	if err != nil {
		return s.fail(err)
	}
	gb := new(big.Int).SetBytes(gbBytes)
	s.GB = gb
	var key [256]byte
	if gaKnown && prime.Sign() > 0 {
		new(big.Int).Exp(gb, a, prime).FillBytes(key[:])
	} else if fixedKey != nil {
		fixedKey.FillBytes(key[:])
	}
	s.mu.Lock()
	s.AuthKey = key
	s.ServerSalt = int64(binary.LittleEndian.Uint64(s.NewNonce[:8]) ^ binary.LittleEndian.Uint64(s.ServerNonce[:8]))
	s.mu.Unlock()
	aux := ref.AuthKeyAuxHash(key)
	mk := func(tag byte) [16]byte {
		hh := sha1.Sum(cat(s.NewNonce[:], []byte{tag}, aux[:]))
		var o [16]byte
		copy(o[:], hh[4:20])
		return o
	}
	h1 := mk(1)
	id := uint32(0x3bcbf734)
	gN, gSN := s.Nonce, s.ServerNonce
	switch s.Mut {
	case "hash1-wrong":
		h1[s.Pos%16] ^= 1
		s.Applied = true
	case "dhgen-retry":
		id, h1, s.Applied = 0x46dc1fb9, mk(2), true
	case "dhgen-fail":
		id, h1, s.Applied = 0xa69dae02, mk(3), true
	case "dhgen-nonce":
		gN[s.Pos%16] ^= 1
		s.Applied = true
	case "dhgen-server-nonce":
		gSN[s.Pos%16] ^= 1
		s.Applied = true
	}
	gen := le32(id)
	gen = append(gen, gN[:]...)
	gen = append(gen, gSN[:]...)
	gen = append(gen, h1[:]...)
	if stalled, err := s.reply(3, gen); stalled || err != nil {
		return s.fail(err)
	}
	s.mu.Lock()
	s.Done = true
	s.mu.Unlock()
	return nil
}

// Mutations lists the adversarial strategies ExServer implements.
var Mutations = []string{
	"own-key-claim-trusted", "untrusted-fingerprint",
	"respq-nonce", "respq-pq-big", "respq-pq-prime", "respq-pq-zero", "respq-pq-one",
	"dhparams-nonce", "dhparams-server-nonce", "dhparams-fail",
	"answer-bitflip", "answer-wrong-newnonce", "inner-nonce", "inner-server-nonce",
	"prime-composite", "prime-not-safe", "prime-2047", "prime-2049",
	"g-bad-residue", "g-0", "g-1", "g-8", "g-neg",
	"ga-0", "ga-1", "ga-p-1", "ga-p", "ga-2^1984", "ga-p-2^1984",
	"ga-plus-p", "ga-2p", "ga-2p+1", "ga-p+1", "ga-2^2048-1",
	"hash1-wrong", "dhgen-retry", "dhgen-fail", "dhgen-nonce", "dhgen-server-nonce",
	"replay-previous-run",
}

// HexKey renders a key prefix for messages.
func HexKey(k [256]byte) string { return hex.EncodeToString(k[:8]) }
