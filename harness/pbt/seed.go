package pbt

import (
	"crypto/aes"
	"crypto/cipher"
	"encoding/binary"
	"io"

	"pgregory.net/rapid"
)

// Stream is a deterministic byte stream keyed by a 64-bit seed (AES-CTR over
// zeros). Every random byte the code under test consumes comes from one of
// these, keyed by a rapid-drawn value, so a fail file replays exactly.
type Stream struct {
	s cipher.Stream
}

// NewStream returns the stream for seed.
func NewStream(seed uint64) *Stream {
	var key [16]byte
	binary.LittleEndian.PutUint64(key[:], seed)
	binary.LittleEndian.PutUint64(key[8:], ^seed)
	b, err := aes.NewCipher(key[:])
	if err != nil {
		panic(err)
	}
	var iv [16]byte
	return &Stream{s: cipher.NewCTR(b, iv[:])}
}

// Read implements io.Reader; never fails.
func (s *Stream) Read(p []byte) (int, error) {
	for i := range p {
		p[i] = 0
	}
	s.s.XORKeyStream(p, p)
	return len(p), nil
}

// Bytes returns the next n bytes.
func (s *Stream) Bytes(n int) []byte {
	b := make([]byte, n)
	_, _ = s.Read(b)
	return b
}

// Uint64 returns the next 8 bytes as an integer.
func (s *Stream) Uint64() uint64 {
	var b [8]byte
	_, _ = s.Read(b[:])
	return binary.LittleEndian.Uint64(b[:])
}

var _ io.Reader = (*Stream)(nil)

// DrawStream draws a seed and returns its stream.
func DrawStream(t *rapid.T, label string) (*Stream, uint64) {
	seed := rapid.Uint64().Draw(t, label)
	return NewStream(seed), seed
}

// DrawBytes draws n pseudo-random bytes via a drawn seed (cheap for rapid:
// one draw regardless of n).
func DrawBytes(t *rapid.T, label string, n int) []byte {
	s, _ := DrawStream(t, label)
	return s.Bytes(n)
}
