package pbt

import (
	"encoding/json"
	"fmt"
	"os"
	"path/filepath"
	"runtime"
	"sync"
)

// Finding is one entry of /verif/known_findings.json.
type Finding struct {
	Property   string   `json:"property"`
	ID         string   `json:"id"`
	Status     string   `json:"status"` // "known" or "fixed"
	Signature  string   `json:"signature"`
	What       string   `json:"what"`
	Witness    any      `json:"witness,omitempty"`
	Commit     string   `json:"commit,omitempty"`
	AlsoAffect []string `json:"also_affects,omitempty"`
}

var (
	findingsOnce sync.Once
	findings     []Finding
)

func findingsPath() string {
	if p := os.Getenv("VERIF_FINDINGS"); p != "" {
		return p
	}
	_, file, _, _ := runtime.Caller(0)
	// .../verif/harness/pbt/findings.go -> .../verif/known_findings.json
	return filepath.Join(filepath.Dir(file), "..", "..", "known_findings.json")
}

func loadFindings() {
	b, err := os.ReadFile(findingsPath())
	if err != nil {
		return
	}
	var f struct {
		Findings []Finding `json:"findings"`
	}
	if err := json.Unmarshal(b, &f); err != nil {
		panic(fmt.Sprintf("known_findings.json: %v", err))
	}
	findings = f.Findings
}

// Known reports whether signature is listed with status "known" for property
// (directly or through also_affects).
func Known(property, signature string) bool {
	findingsOnce.Do(loadFindings)
	for _, f := range findings {
		if f.Status != "known" || f.Signature != signature {
			continue
		}
		if f.Property == property {
			return true
		}
		for _, p := range f.AlsoAffect {
			if p == property {
				return true
			}
		}
	}
	return false
}

// ReportKnown prints the KNOWN-FINDING line the driver relays to stdout.
func ReportKnown(property, signature, what string) {
	fmt.Printf("KNOWN-FINDING: property=%s signature=%s %s\n", property, signature, what)
}
